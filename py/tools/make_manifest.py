#!/venv/bin/python
"""Write /verif/MANIFEST.json from py/registry.py and each property module's MANIFEST dict."""
import importlib
import json
import os
import sys
from pathlib import Path

ROOT = Path(__file__).resolve().parents[1]
sys.path.insert(0, str(ROOT))
sys.path.insert(0, os.environ.get('VERIF_REPO', '/repo'))
from registry import PROPS, NOT_APPLICABLE  # noqa: E402

BASELINE = ('cd /repo && env -u KOZEA_WEASYPRINT_VERIF /venv/bin/python -m pytest -ra -q -p no:cacheprovider '
            '--timeout=900 --continue-on-collection-errors')

checks = []
for pid in PROPS:
    mod = importlib.import_module(f'props.{pid.lower()}')
    m = mod.MANIFEST
    checks.append({
        'property_id': pid,
        'quick_cmd': f'/venv/bin/python py/check.py {pid} --tier quick',
        'thorough_cmd': f'/venv/bin/python py/check.py {pid} --tier thorough',
        'replay_cmd_template': f'/venv/bin/python py/check.py {pid} --replay {{path}}',
        'evidence_file': f'evidence/{pid}.json',
        'engine': 'lean4-proof',
        'level_claimed': {'category': 'proof', 'text': m['text'], 'design_ref': m['design_ref']},
        'level_note': m['note'],
        'technique': m['technique'],
    })
manifest = {
    'version': 1,
    'setup_cmd': '/venv/bin/python py/setup.py',
    'hooks': {
        'guard': 'KOZEA_WEASYPRINT_VERIF',
        'enable': 'checks set KOZEA_WEASYPRINT_VERIF=1 in their own process; /repo is pure Python (editable install), '
                  'nothing to rebuild',
        'baseline_off_cmd': BASELINE,
        'source_commits': [],
        'add_only': True,
    },
    'engines': [{
        'name': 'lean4-proof', 'path': 'lean/',
        'serves_properties': PROPS,
        'kind_free_text': 'Lean 4 models + theorems (lean/WpModel), tables regenerated from /repo by py/extract, '
                          'executable correspondence through the compiled line-protocol driver (py/check.py)',
    }],
    'checks': checks,
    'not_applicable': [{'property_id': p, 'reason': r} for p, r in NOT_APPLICABLE.items() if p not in PROPS],
    'notes': 'See DESIGN.md. exit 0 = held, 1 = VIOLATION line printed, 2 = infrastructure error.',
}
(ROOT.parent / 'MANIFEST.json').write_text(json.dumps(manifest, indent=1) + '\n')
print('checks:', [c['property_id'] for c in checks], 'not_applicable:', len(manifest['not_applicable']))
