#!/venv/bin/python
"""setup_cmd: regenerate every Gen module from /repo, then build the whole library and the driver."""
import importlib
import os
import sys
from pathlib import Path

sys.path.insert(0, str(Path(__file__).resolve().parent))
sys.path.insert(0, os.environ.get('VERIF_REPO', '/repo'))

from registry import PROPS  # noqa: E402
from vlib import lean  # noqa: E402


def main():
    seen = set()
    for pid in PROPS:
        prop = importlib.import_module(f'props.{pid.lower()}').PROP
        for extractor in prop.extractors:
            key = (extractor.__module__, extractor.__name__)
            if key in seen:
                continue
            seen.add(key)
            try:
                print('gen', extractor())
            except Exception as exc:  # reported by the property's own check
                print('gen failed', key, exc)
    ok, out, secs = lean.lake_build(['WpModel'] + [f'driver_{p.lower()}' for p in PROPS])
    print(out[-3000:])
    print(f'build ok={ok} in {secs:.1f}s')
    return 0 if ok else 1


if __name__ == '__main__':
    sys.exit(main())
